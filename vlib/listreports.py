"""C19 extension helpers: tokenisers for the report sections behind the source listing (usage list, cross
reference list, section / macro / function / register / include lists, page structure) and the reformatting of
hook records into ListingReports_Trace events.  Tokenising only: what must hold between the tokens is stated in
spec/ListingReports.tla and decided by TLC (spec/ListingReports_Trace.tla)."""
import os
import re

from . import listing

BIG = (1 << 31) - 16
_HEAD_END = re.compile(r" - \d+[/.\-]\d+[/.\-]\d+ \d+:\d+:\d+$")
_DASHES = re.compile(r"^  -+$")


def width(s):
    """columns of a line with tabs expanded to 8-column stops (form feed not counted)"""
    return len(s.replace("\f", "").expandtabs(8))


def norm_file(name):
    """file name as the reports and INCLUDE statements spell it -> comparable token (base name, default extension)"""
    n = name.strip().strip('"').strip("'")
    n = os.path.basename(n.replace("\\", "/"))
    if "." not in n and n and n != "INTERNAL":
        n += ".inc"
    return n.lower() if n != "INTERNAL" else n


# ---------------------------------------------------------------------------------------------------
# page structure
# ---------------------------------------------------------------------------------------------------
def split_pages(text):
    """-> (body lines without page headings, pages).  pages: list of {n (body lines), maxw (widest physical line,
    the heading of the first page excepted: it is printed before any PAGE statement), chapter (the page starts with
    a report heading), ff (it starts with a form feed), newpage (its first body line is a NEWPAGE statement)}"""
    lines = text.split("\n")
    if lines and lines[-1] == "":
        lines.pop()
    body = []
    pages = []
    i = 0
    first = True
    while i < len(lines):
        ln = lines[i]
        if first or ln.startswith("\f"):
            pg = {"n": 0, "maxw": 0, "chapter": False, "ff": ln.startswith("\f"), "newpage": False, "_body": []}
            pages.append(pg)
            head = ln.lstrip("\f")
            ws = [width(head)]
            i += 1
            k = 0
            while not _HEAD_END.search(head) and i < len(lines) and k < 8:
                head += lines[i]
                ws.append(width(lines[i]))
                i += 1
                k += 1
            if i < len(lines) and lines[i] != "":
                ws.append(width(lines[i]))               # TITLE line
                i += 1
            for _ in range(2):
                if i < len(lines) and lines[i] == "":
                    i += 1
            if not first:
                pg["maxw"] = max(ws)
            first = False
            continue
        pg = pages[-1]
        pg["n"] += 1
        pg["maxw"] = max(pg["maxw"], width(ln))
        pg["_body"].append(ln)
        body.append(ln)
        i += 1
    for pg in pages:
        b = [x for x in pg.pop("_body")]
        nz = [k for k, x in enumerate(b) if x.strip()]
        if nz:
            k = nz[0]
            if re.match(r"^  \S", b[k]) and k + 1 < len(b) and _DASHES.match(b[k + 1]):
                pg["chapter"] = True
            if re.search(r"[\t ]newpage([\t ;]|$)", b[k], re.I):
                pg["newpage"] = True
    return body, pages


def page_event(pages, honour_newpage=True):
    out = []
    for k, pg in enumerate(pages):
        nxt = pages[k + 1] if k + 1 < len(pages) else None
        forced = bool(nxt and (nxt["chapter"] or (honour_newpage and nxt["newpage"])))
        out.append({"n": pg["n"], "maxw": pg["maxw"], "forced": forced})
    return {"a": "PAGES", "pages": out}


# ---------------------------------------------------------------------------------------------------
# report sections
# ---------------------------------------------------------------------------------------------------
TITLES = [("symtab", "  Symbol Table (* = unused):"), ("regs", "  Register Definitions (* = unused):"),
          ("macros", "  Defined Macros:"), ("structs", "  Defined Structures/Unions:"), ("funcs", "  Defined Functions:"),
          ("defines", "  DEFINEs:"), ("codepages", "  Code Pages:"), ("cross", "  Cross Reference List:"),
          ("sects", "  Sections:"), ("incs", "  Nested Include Files:")]
_USE = re.compile(r"^  Space Used in (\S+) :$")


def report_sections(body):
    """-> list of (kind, argument, lines) in the order of the listing; kind 'use' has the segment name as argument"""
    out = []
    cur = None
    i = 0
    while i < len(body):
        ln = body[i]
        nxt = body[i + 1] if i + 1 < len(body) else ""
        kind = None
        if _DASHES.match(nxt):
            m = _USE.match(ln)
            if m:
                kind, arg = "use", m.group(1)
            else:
                for k, t in TITLES:
                    if ln == t:
                        kind, arg = k, None
                        break
        if kind:
            cur = (kind, arg, [])
            out.append(cur)
            i += 2
            continue
        if cur is not None:
            cur[2].append(ln)
        i += 1
    return out


def parse_usage(lines):
    """items of one segment's usage list -> [[first, last], ...] (hexadecimal), None if a token is no address"""
    items = []
    for ln in lines:
        if not ln.strip():
            if items:
                break
            continue
        for tok in ln.split():
            parts = tok.split("-")
            try:
                vals = [int(p, 16) for p in parts]
            except ValueError:
                return None
            if len(vals) == 1:
                items.append([vals[0], vals[0]])
            elif len(vals) == 2:
                items.append(vals)
            else:
                return None
    return items


_XSYM = re.compile(r"^symbol (\S+?)(?:\[([^\]]*)\])? \(=(.*), ([^,]*):(\d+)\):$")
_XFILE = re.compile(r"^ file (.*) :$")
_XENT = re.compile(r"\s*(\d+)(?:\(\s*(\d+)\)|    )?")


def parse_cross(lines, radix):
    """-> list of symbols {name, sect, val (canonical hex text or ""), dfile, dline, groups [(file, [(line, n)])]}"""
    syms = []
    cur = None
    grp = None
    for ln in lines:
        m = _XSYM.match(ln)
        if m:
            vtxt = m.group(3)
            neg = vtxt.startswith("-")
            v = listing.parse_int(vtxt.lstrip("-"), radix)
            cur = {"name": m.group(1), "sect": m.group(2) or "", "val": listing.canon(-v if neg else v) if v is not None else "",
                   "dfile": norm_file(m.group(4)), "dline": int(m.group(5)), "groups": []}
            syms.append(cur)
            grp = None
            continue
        m = _XFILE.match(ln)
        if m and cur is not None:
            grp = (norm_file(m.group(1)), [])
            cur["groups"].append(grp)
            continue
        if ln.startswith("  ") and ln.strip() and grp is not None and re.match(r"^[\s\d()]+$", ln):
            for m in _XENT.finditer(ln):
                if m.group(1):
                    grp[1].append((int(m.group(1)), int(m.group(2)) if m.group(2) else 1))
            continue
        if ln.strip() and not ln.startswith(" "):
            break                                           # something else: end of the list
    return syms


def parse_indented(lines, unit=1):
    out = []
    for ln in lines:
        if not ln.strip():
            if out:
                break
            continue
        ind = len(ln) - len(ln.lstrip(" "))
        out.append([ind // unit if unit > 1 else ind, ln.strip()])
    return out


def _entries(lines):
    started = False
    for ln in lines:
        if not ln.strip():
            if started:
                break
            continue
        started = True
        for ent in ln.split(" | "):
            ent = ent.rstrip().rstrip("|").rstrip()
            if ent.strip():
                yield ent.strip()


def parse_names(lines):
    """macro / function list: -> ([[name, section]], count or None)"""
    names = []
    for ent in _entries(lines):
        m = re.match(r"^([^\[{]+)(?:\[([^\]]*)\])?(?:\{.*\})?$", ent)
        if m:
            names.append([m.group(1), m.group(2) or ""])
    count = None
    for ln in lines:
        m = re.match(r"^\s*(\d+) macros?$", ln)
        if m:
            count = int(m.group(1))
    return names, count


def parse_regs(lines):
    names = []
    for ent in _entries(lines):
        m = re.match(r"^(?:\[([^\]]*)\])?[* ]?\s*(\S+) --> ", ent)
        if m:
            names.append([m.group(2), m.group(1) or ""])
    return names


# ---------------------------------------------------------------------------------------------------
# hook trace -> events
# ---------------------------------------------------------------------------------------------------
def _fold(s, cs):
    return s if cs else s.upper()


def trace_events(trace, case_sensitive=False):
    """hook records (file,stmt,emit,sym,ref,diag,line,split) of ALL passes -> ListingReports_Trace events, and the
    set of segments with addresses beyond TLC's integers (their CHUNK events are left out)"""
    ev = []
    big = set()
    for e in trace:
        if e["e"] in ("emit", "reserve", "retract") and e["addr"] + max(1, e.get("n", 0)) >= BIG:
            big.add(e["seg"])
    main = "?"
    rec0 = 0
    errs0 = 0
    split = None
    for e in trace:
        k = e["e"]
        if k == "file_begin":
            main = norm_file(e["file"])
        elif k == "pass_begin":
            ev.append({"a": "PASS", "file": main})
            rec0 = 0
            errs0 = 0
            split = None
        elif k == "line":
            ev.append({"a": "LINE", "d": e["depth"]})
        elif k == "split":
            split = e
        elif k == "stmt":
            op = e["op"].upper()
            lab = ""
            arg = ""
            if split is not None and split.get("line") == e["line"]:
                lab = split.get("lab", "").rstrip(":")
                args = split.get("args", [])
                arg = args[0]["a"] if args else ""
            if op == "INCLUDE":
                arg = norm_file(arg)
            elif op in ("SECTION", "ENDSECTION", "MACRO", "FUNCTION"):
                arg = _fold(arg.strip(), case_sensitive)
            else:
                arg = ""
            lab = _fold(lab.strip(), case_sensitive) if op in ("MACRO", "FUNCTION") else ""
            if op in ("MACRO", "FUNCTION") and ("{" in lab or (not lab and "{" in arg)):
                lab, arg = "?", ""                    # name built by {symbol} expansion: not readable from the text
            ev.append({"a": "STMT", "op": op if op in ("INCLUDE", "SECTION", "ENDSECTION", "MACRO", "FUNCTION") else "",
                       "lab": lab, "arg": arg, "tagd": e["tagd"], "rec0": rec0, "rec": e["rec"], "ifasm": e["ifasm"],
                       "derr": e["errs"] - errs0, "line": e["line"], "opname": op})
            rec0 = e["rec"]
            errs0 = e["errs"]
            split = None
        elif k in ("sym_def", "sym_mod"):
            if e.get("out") in ("double", "mix"):
                continue
            ev.append({"a": "DEF", "name": e["name"], "sect": e["sect"], "line": e["line"], "typ": e.get("typ", 0),
                       "val": listing.canon(e["val"]) if "val" in e and e.get("typ") == 1 else "",
                       "mod": 1 if k == "sym_mod" else 0,
                       "ival": e["val"] if (e.get("typ") == 1 and 0 <= e.get("val", -1) < BIG) else -1})
        elif k == "sym_ref":
            if e.get("out") != "unknown":
                ev.append({"a": "REF", "name": e["name"], "sect": e["sect"], "line": e["line"]})
        elif k in ("emit", "reserve", "retract"):
            if e["seg"] in big or not (1 <= e["seg"] <= 12):
                continue
            g = max(1, e["gran"])
            if k == "emit":
                n = len(e["bytes"]) // 2 // g
            elif k == "reserve":
                n = e.get("n", 0)
            else:
                n = e.get("n", 0) // g
            if n > 0:
                ev.append({"a": "CHUNK", "kind": k, "seg": e["seg"], "addr": e["addr"], "n": n, "line": e["line"]})
        elif k == "diag" and e.get("num") == 90:
            ev.append({"a": "WARN90", "line": e["line"]})
    return ev, big


def image_items(pr, big=()):
    """parsed code file -> {segment: ascending maximal [first, last] areas in address units}"""
    per = {}
    for r in pr.data_records():
        g = max(1, r.gran)
        n = len(r.data) // g
        if n > 0:
            per.setdefault(r.seg, []).append((r.start, r.start + n - 1))
    out = {}
    for seg, rs in per.items():
        if seg in big or any(b >= BIG for (_, b) in rs):
            continue
        rs.sort()
        m = []
        for a, b in rs:
            if m and a <= m[-1][1] + 1:
                m[-1][1] = max(m[-1][1], b)
            else:
                m.append([a, b])
        out[seg] = m
    return out


def report_events(text, radix, pr, big, case_sensitive=False, want_pages=True):
    """tokenised report sections of one listing -> events (in protocol order) + statistics"""
    body, pages = split_pages(text)
    secs = report_sections(body)
    ev = []
    st = {"use": 0, "xsym": 0, "xref": 0, "sects": 0, "macros": 0, "funcs": 0, "regs": 0, "incs": 0, "skipped_segments": 0}
    _, lsyms = listing.parse_listing(text, radix)
    ev.append({"a": "SYMTAB", "names": [[n, s or ""] for (n, s, _v, _seg, _u) in lsyms] or [["", ""]]})
    have = {k for (k, _a, _l) in secs}
    for (k, arg, lines) in secs:
        if k != "use":
            continue
        if arg not in listing.SEGNAMES or arg == "BITDATA":
            st["skipped_segments"] += 1
            continue
        seg = listing.SEGNAMES.index(arg)
        items = parse_usage(lines)
        if seg in big or items is None or any(b >= BIG for (_a, b) in items):
            st["skipped_segments"] += 1
            continue
        ev.append({"a": "USE", "seg": seg, "items": items})
        st["use"] += 1
    ev.append({"a": "USEEND"})
    if pr is not None:
        for seg, items in sorted(image_items(pr, big).items()):
            if 1 <= seg <= 12 and seg != 6:
                ev.append({"a": "IMAGE", "seg": seg, "items": items})
    for (k, arg, lines) in secs:
        if k == "cross":
            for s in parse_cross(lines, radix):
                ev.append({"a": "XSYM", "name": s["name"], "sect": s["sect"], "dfile": s["dfile"], "dline": s["dline"],
                           "val": s["val"]})
                st["xsym"] += 1
                for (f, es) in s["groups"]:
                    for (ln, n) in es:
                        ev.append({"a": "XREF", "file": f, "line": ln, "n": n})
                        st["xref"] += 1
            ev.append({"a": "XEND"})
        elif k == "sects":
            ls = parse_indented(lines)
            ev.append({"a": "SECTS", "lines": ls})
            st["sects"] += len(ls)
        elif k == "macros":
            names, count = parse_names(lines)
            ev.append({"a": "MACROS", "names": names, "count": count if count is not None else -1})
            st["macros"] += len(names)
        elif k == "funcs":
            names, _ = parse_names(lines)
            ev.append({"a": "FUNCS", "names": [n for (n, _s) in names]})
            st["funcs"] += len(names)
        elif k == "regs":
            names = parse_regs(lines)
            ev.append({"a": "REGS", "names": names})
            st["regs"] += len(names)
        elif k == "incs":
            ls = [[ind // 5, norm_file(n)] for (ind, n) in parse_indented(lines)]
            ev.append({"a": "INCS", "lines": ls})
            st["incs"] += len(ls)
    if "sects" not in have:
        ev.append({"a": "SECTS", "lines": []})
    if "macros" not in have:
        ev.append({"a": "MACROS", "names": [], "count": 0})
    if "funcs" not in have:
        ev.append({"a": "FUNCS", "names": []})
    if "regs" not in have:
        ev.append({"a": "REGS", "names": []})
    if want_pages:
        ev.append(page_event(pages))
    return ev, st, pages
