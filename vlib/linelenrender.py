"""Rendering of the `linelen` family of C20 (spec/DiagPos.tla LineLenProg, spec/LineReader.tla): token lines plus the
physical-line description the specification gives for them -> file content.  Nothing is decided here: a physical
line [n, bs, z, eol] is the rendered text of its part of the statement padded with blanks to exactly n characters,
a backslash iff bs, ^Z iff z, and the line end eol ("lf" | "crlf" | "none")."""
from vlib import macrorender as mr
from vlib.common import CheckError

EOL = {"lf": "\n", "crlf": "\r\n", "none": ""}


def render_file(lines, phys, dialect):
    """lines: token lines of one file; phys: its physical lines in order.  Returns the file content (str, latin-1)."""
    out = []
    k = 0
    for toks in lines:
        parts = mr.render_line(toks, dialect, None).split("\\\n")
        for j, part in enumerate(parts):
            if k >= len(phys):
                raise CheckError("linelen: fewer physical lines described than the token lines have")
            p = phys[k]
            k += 1
            if p["bs"] != (j < len(parts) - 1):
                raise CheckError("linelen: continuation flags of the description do not match the token line %r" % (toks,))
            if len(part) > p["n"]:
                raise CheckError("linelen: natural text %r is longer than the stated length %d" % (part, p["n"]))
            out.append(part + " " * (p["n"] - len(part)) + ("\\" if p["bs"] else "") + ("\x1a" if p["z"] else "") + EOL[p["eol"]])
    for p in phys[k:]:                      # physical lines behind the last statement (the lone ^Z of a DOS file)
        if p["n"] or p["bs"]:
            raise CheckError("linelen: a described physical line has no token line")
        out.append(("\x1a" if p["z"] else "") + EOL[p["eol"]])
    return "".join(out)
