"""Run the real asl several times in ONE prepared file tree, from different working directories (used by
checks/ext_incsearch.py, the include-search extension of C17).  Only rendering and collecting lives here.

A group is a dict:
  files : {relative path: str|bytes}     the tree (created once)
  runs  : [{"cwd": relative directory, "argv": [str], "outs": [relative paths of the code files the run may write]}]
"{ROOT}" in argv and in text files stands for the tree's root.  Per run the result is a dict: rc, sig, timeout, err,
p (list: bytes of each code file or None).  The runs of a group are executed one after the other; the code files of a
run are removed before the next one starts.
"""
import concurrent.futures as cf
import os
import shutil
import subprocess
import tempfile

from .common import NCPU, scratch


def run_group(bdir, group):
    d = tempfile.mkdtemp(prefix="i-", dir=scratch())
    try:
        for name, text in group["files"].items():
            path = os.path.join(d, name)
            os.makedirs(os.path.dirname(path), exist_ok=True)
            data = text.replace("{ROOT}", d).encode("latin-1") if isinstance(text, str) else bytes(text)
            with open(path, "wb") as f:
                f.write(data)
        e = dict(os.environ)
        for k in ("ASCMD", "USEANSI", "LC_MESSAGES", "LC_CTYPE"):
            e.pop(k, None)
        e.update({"AS_MSGPATH": bdir, "LANG": "C", "LC_ALL": "C"})
        res = []
        for run in group["runs"]:
            cmd = [os.path.join(bdir, "asl")] + [a.replace("{ROOT}", d) for a in run["argv"]]
            try:
                p = subprocess.run(cmd, cwd=os.path.join(d, run["cwd"]), env=e, timeout=run.get("timeout", 60),
                                   stdin=subprocess.DEVNULL, stdout=subprocess.PIPE, stderr=subprocess.PIPE)
                rc, err, to = p.returncode, p.stdout + p.stderr, False
            except subprocess.TimeoutExpired as ex:
                rc, err, to = None, (ex.stdout or b"") + (ex.stderr or b""), True
            data = []
            for rel in run["outs"]:
                out = os.path.join(d, rel)
                if os.path.isfile(out):
                    with open(out, "rb") as f:
                        data.append(f.read())
                    os.unlink(out)
                else:
                    data.append(None)
            res.append({"rc": rc, "sig": (-rc) if (rc is not None and rc < 0) else None, "timeout": to,
                        "err": err.decode("latin-1").replace(d, "{ROOT}"), "p": data})
        return res
    finally:
        shutil.rmtree(d, ignore_errors=True)


def _grp(args):
    return run_group(*args)


def run_groups(build, groups, workers=None):
    """results in order: one list of run results per group"""
    if not groups:
        return []
    scratch()
    w = workers or NCPU
    with cf.ProcessPoolExecutor(max_workers=w) as ex:
        return list(ex.map(_grp, [(build.dir, g) for g in groups], chunksize=max(1, min(8, len(groups) // (w * 4) or 1))))
