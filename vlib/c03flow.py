"""C03 helpers for the control-flow shape images of spec/DasmFlow_Gen.tla: rendering of an image printed by TLC into
a dasl job (binary / Intel-hex file + command line), tokenising of the listed areas, seed-chosen stratified sample.
Nothing is decided here: expected exit status, step count and areas come from the specification."""
from . import dasm

ISAS = ("6800", "87C00", "4004")
TOOL_ENV = {"ASAN_OPTIONS": "detect_leaks=0:abort_on_error=0:exitcode=99:allocator_may_return_null=1"}
MSGS = ["das.msg", "tools.msg", "cmdarg.msg", "ioerrs.msg"]


def command(x, cpu, load):
    """dasl command line for image x: load option, then the entry addresses (direct, or through the vector cells)"""
    cmd = ["dasl", "-cpu", cpu]
    cmd += ["-binfile", "x.bin@%d" % x["org"]] if load == "bin" else ["-hexfile", "x.hex"]
    if x["mode"] == "vector":
        for i, (va, _t) in enumerate(sorted(tuple(v) for v in x["vecs"]), 1):
            cmd += ["-entryaddress", "(%d,2,%s),ent%d" % (va, "MSB" if x["msb"] else "LSB", i)]
    else:
        for a in sorted(x["entries"]):
            cmd += ["-entryaddress", "%d" % a]
    return cmd


def job(x, cpu, load, timeout):
    data = bytes(x["bytes"])
    files = {"x.bin": data} if load == "bin" else {"x.hex": dasm.intel_hex(data, x["org"])}
    return {"files": files, "cmd": command(x, cpu, load), "timeout": timeout, "msglinks": MSGS, "env": TOOL_ENV,
            "keep": 4000}


def listed(out):
    """([(lo, hi)] code, [(lo, hi)] data) of dasl's 'disassembled area' summary"""
    ar = dasm.listed_areas(out)
    return (sorted((a, b) for (a, b, k) in ar if k == "code"), sorted((a, b) for (a, b, k) in ar if k == "data"))


def expected(x):
    return (sorted(tuple(t) for t in x["code"]), sorted(tuple(t) for t in x["data"]))


def ident(x):
    return (x["isa"], x["org"], bytes(x["bytes"]), tuple(sorted(x["entries"])), x["mode"])


def strata(x):
    """strata of one image: every enqueue decision class of its run, its first routine's (form, pre, target position)
    per number of routines, and the (routines, entries, entry mode, gap, load address) combination"""
    s0 = x["shape"][0]
    keys = [(x["isa"], "class") + tuple(c) for c in x["classes"]]
    keys.append((x["isa"], "form", s0[1], s0[0], s0[3], x["k"]))
    keys.append((x["isa"], "combo", x["k"], len(x["entries"]), x["mode"], x["gap"], x["org"]))
    keys.append((x["isa"], "targets", tuple(s[2] for s in x["shape"]), s0[3]))
    return keys


def pick(images, n, r):
    """seed-chosen sample of about n images that contains every stratum at least once"""
    images = list(images)
    if n >= len(images):
        return images
    r.shuffle(images)
    seen, out, rest = set(), [], []
    for x in images:
        ks = [k for k in strata(x) if k not in seen]
        if ks:
            seen.update(ks)
            out.append(x)
        else:
            rest.append(x)
    return out + rest[:max(0, n - len(out))]
