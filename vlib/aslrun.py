"""Run the real binaries on rendered inputs and collect observations."""
import json
import os
import shutil
import tempfile

from . import codefile
from .common import REPO, run, scratch

INCLUDE = os.path.join(REPO, "include")


class AsmResult:
    __slots__ = ("rc", "out", "err", "timeout", "p", "files", "trace", "dir", "sig")

    def ok(self):
        return self.rc == 0 and not self.timeout

    def parsed(self):
        return codefile.parse(self.p) if self.p is not None else None


def assemble(build, sources, main="a.asm", opts=None, events=None, env=None, timeout=20, keep=False,
             want=(), cwd_files=None, binary_sources=None):
    """sources: dict name->text (written latin-1).  Returns AsmResult.
    events: comma list of hook event classes to record (needs a hooked build), or None."""
    d = tempfile.mkdtemp(prefix="a-", dir=scratch())
    try:
        for name, text in sources.items():
            path = os.path.join(d, name)
            os.makedirs(os.path.dirname(path), exist_ok=True)
            with open(path, "wb") as f:
                f.write(text.encode("latin-1") if isinstance(text, str) else text)
        for name, data in (binary_sources or {}).items():
            with open(os.path.join(d, name), "wb") as f:
                f.write(data)
        e = build.env(env)
        tr = None
        if events and build.hooks:
            tr = os.path.join(d, "trace.ndjson")
            e["ASL_VERIF_TRACE"] = tr
            e["ASL_VERIF_EVENTS"] = events
        cmd = [build.tool("asl")] + list(opts if opts is not None else ["-q"])
        mains = [main] if isinstance(main, str) else list(main)
        cmd += mains
        rc, out, err, to = run(cmd, cwd=d, env=e, timeout=timeout)
        r = AsmResult()
        r.rc, r.out, r.err, r.timeout = rc, out, err, to
        r.sig = (-rc) if (rc is not None and rc < 0) else None
        r.p = None
        pfile = os.path.join(d, os.path.splitext(mains[0])[0] + ".p")
        if os.path.exists(pfile):
            with open(pfile, "rb") as f:
                r.p = f.read()
        r.files = {}
        for w in want:
            path = os.path.join(d, w)
            if os.path.exists(path):
                with open(path, "rb") as f:
                    r.files[w] = f.read()
        r.trace = None
        if tr and os.path.exists(tr):
            r.trace = read_trace(tr)
        r.dir = d if keep else None
        return r
    finally:
        if not keep:
            shutil.rmtree(d, ignore_errors=True)


def read_trace(path):
    ev = []
    with open(path, "rb") as f:
        for line in f:
            line = line.strip()
            if not line:
                continue
            try:
                ev.append(json.loads(line.decode("latin-1")))
            except Exception:
                ev.append({"e": "garbled", "raw": line[:200].decode("latin-1")})
    return ev


def corpus():
    """The 201 golden tests: list of (name, dir, asm path, flags list)."""
    base = os.path.join(REPO, "tests")
    res = []
    for t in sorted(os.listdir(base)):
        d = os.path.join(base, t)
        asm = os.path.join(d, t + ".asm")
        ori = os.path.join(d, t + ".ori")
        if os.path.isfile(asm) and os.path.isfile(ori):
            flags = []
            fp = os.path.join(d, "asflags")
            if os.path.exists(fp):
                with open(fp) as f:
                    flags = f.readline().split()
            res.append((t, d, asm, flags))
    return res


def assemble_corpus(build, t, events=None, extra_opts=(), env=None, timeout=60, want_list=False, outdir=None):
    """Assemble golden test t=(name, dir, asm, flags) the way test_driver.c does, into a scratch dir."""
    name, d, asm, flags = t
    out = outdir or tempfile.mkdtemp(prefix="c-", dir=scratch())
    e = build.env(env)
    tr = None
    if events and build.hooks:
        tr = os.path.join(out, "trace.ndjson")
        e["ASL_VERIF_TRACE"] = tr
        e["ASL_VERIF_EVENTS"] = events
    pfile = os.path.join(out, name + ".p")
    cmd = [build.tool("asl")] + flags + ["-q", "-i", INCLUDE] + list(extra_opts) + \
          [asm, "-o", pfile, "-shareout", os.path.join(out, name + ".h")]
    rc, o, er, to = run(cmd, cwd=out, env=e, timeout=timeout)
    r = AsmResult()
    r.rc, r.out, r.err, r.timeout = rc, o, er, to
    r.sig = (-rc) if (rc is not None and rc < 0) else None
    r.p = None
    if os.path.exists(pfile):
        with open(pfile, "rb") as f:
            r.p = f.read()
    r.trace = read_trace(tr) if tr and os.path.exists(tr) else None
    r.files = {}
    r.dir = out
    return r


def p2bin_image(build, pbytes, workdir=None):
    """p2bin -k -l 0 -r 0x-0x, as the test driver does; returns image bytes or None."""
    d = workdir or tempfile.mkdtemp(prefix="b-", dir=scratch())
    with open(os.path.join(d, "x.p"), "wb") as f:
        f.write(pbytes)
    rc, o, er, to = run([build.tool("p2bin"), "-q", "-l", "0", "-r", "0x-0x", "x"], cwd=d, env=build.env(),
                        timeout=30)
    img = None
    bp = os.path.join(d, "x.bin")
    if rc == 0 and os.path.exists(bp):
        with open(bp, "rb") as f:
            img = f.read()
    if not workdir:
        shutil.rmtree(d, ignore_errors=True)
    return img


# ---------------------------------------------------------------------------------------------
# batch execution in worker processes (the per-run Python overhead dominates a 3 ms asl run)
# ---------------------------------------------------------------------------------------------
def _job(args):
    (bdir, hooks, flavour, job, base) = args
    from .build import Build
    b = Build(bdir, flavour, hooks)
    r = assemble(b, job["sources"], main=job.get("main", "a.asm"), opts=job.get("opts"),
                 events=job.get("events"), env=job.get("env"), timeout=job.get("timeout", 20),
                 want=job.get("want", ()), binary_sources=job.get("bin"))
    return {"rc": r.rc, "out": r.out, "err": r.err, "timeout": r.timeout, "p": r.p, "files": r.files,
            "trace": r.trace, "sig": r.sig}


def assemble_many(build, jobs, workers=None):
    """jobs: list of dicts {sources, main?, opts?, events?, env?, timeout?, want?}; returns AsmResult list."""
    import concurrent.futures as cf
    from .common import NCPU
    if not jobs:
        return []
    scratch()  # make sure the parent owns the scratch dir
    args = [(build.dir, build.hooks, build.flavour, j, None) for j in jobs]
    out = []
    with cf.ProcessPoolExecutor(max_workers=workers or NCPU) as ex:
        for d in ex.map(_job, args, chunksize=max(1, min(64, len(args) // ((workers or NCPU) * 4) or 1))):
            r = AsmResult()
            r.rc, r.out, r.err, r.timeout, r.p, r.files, r.trace, r.sig = (
                d["rc"], d["out"], d["err"], d["timeout"], d["p"], d["files"], d["trace"], d["sig"])
            r.dir = None
            out.append(r)
    return out
