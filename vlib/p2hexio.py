"""C06 helpers: render an option vector to a p2hex command line, run the real p2hex, tokenise its text.

The tokenisers only split a line into its lexical fields (hex digit pairs -> small integers); no sums,
no counts, no address arithmetic happens here: all of that is done by the TLA+ predicates of spec/P2Hex.tla.
"""
import os
import re
import shutil
import subprocess
import tempfile

from . import codefile
from .common import run, scratch

FNAME = {"MOTO": "Moto", "INTEL": "Intel", "INTEL16": "Intel16", "INTEL32": "Intel32", "MOS": "MOS", "TEK": "Tek",
         "ATMEL": "Atmel", "C": "C", "DSK": "DSK", "MICO8": "Mico8"}
SEGNAME = {1: "code", 2: "data", 3: "idata", 4: "xdata", 5: "ydata", 6: "bitdata", 7: "io", 8: "reg", 9: "romdata"}

BASE_O = {"fmt": "DEFAULT", "l": 16, "M": 1, "rec5": True, "sep": False, "i": 0, "m": 0, "rel": False, "reloc": 0,
          "rstart": -1, "rstop": -1, "e": -1, "avrlen": 3, "seg": 0, "filt": [], "ofs": 0,
          "cfmt": ["d", "S", "E", "l"]}


def hexarg(v):
    """a negative offset can only be given as its 32-bit two's complement (a leading '-' starts an option)"""
    return "0x%x" % (v & 0xFFFFFFFF)


def argv(o, src="x.p", dst="o.hex"):
    """command line (without the program) for option vector o"""
    a = []
    if o["fmt"] != "DEFAULT":
        a += ["-F", FNAME[o["fmt"]]]
    if o["l"] != 16:
        a += ["-l", str(o["l"])]
    if o["M"] != 1:
        a += ["-M", str(o["M"])]
    if not o["rec5"]:
        a += ["+5"]
    if o["sep"]:
        a += ["-s"]
    if o["i"] != 0:
        a += ["-i", str(o["i"])]
    if o["m"] != 0:
        a += ["-m", str(o["m"])]
    if o["rel"]:
        a += ["-a"]
    if o["reloc"] != 0:
        a += ["-R", hexarg(o["reloc"])]
    if o["rstart"] != -1 or o["rstop"] != -1:
        a += ["-r", "%s-%s" % ("$" if o["rstart"] == -1 else "0x%x" % o["rstart"],
                                "$" if o["rstop"] == -1 else "0x%x" % o["rstop"])]
    if o["e"] != -1:
        a += ["-e", "0x%x" % o["e"]]
    if o["avrlen"] != 3:
        a += ["-avrlen", str(o["avrlen"])]
    if o["seg"] != 0:
        a += ["-segment", SEGNAME[o["seg"]]]
    if o["filt"]:
        a += ["-f", ",".join("$%02x" % c for c in o["filt"])]
    if o["cfmt"] != BASE_O["cfmt"]:
        a += ["-cformat", "".join(o["cfmt"])]
    s = src if not o["ofs"] else "%s($%x)" % (src, o["ofs"])
    return [s, dst] + a


_HEX2 = r"(?:[0-9A-Fa-f]{2})"
_RE_S = re.compile(r"^S([0-9])(%s+)$" % _HEX2)
_RE_I = re.compile(r"^:(%s+)$" % _HEX2)
_RE_M = re.compile(r"^;(%s+)$" % _HEX2)
_RE_T = re.compile(r"^/(%s+)$" % _HEX2)
_RE_A = re.compile(r"^(%s{2,3}):(%s{2})$" % (_HEX2, _HEX2))
_RE_D = re.compile(r"^9([0-9A-F]{4})((?:[BM][0-9A-F]{4})+)7([0-9A-F]{4})F$")
_RE_DE = re.compile(r"^1([0-9A-F]{4})7([0-9A-F]{4})F$")
_RE_X = re.compile(r"^[0-9A-F]{5}$")


def _bytes(h):
    return [int(h[i:i + 2], 16) for i in range(0, len(h), 2)]


def tokenize_line(line):
    m = _RE_S.match(line)
    if m:
        return {"k": "S", "t": int(m.group(1)), "b": _bytes(m.group(2))}
    m = _RE_I.match(line)
    if m:
        return {"k": "I", "b": _bytes(m.group(1))}
    m = _RE_M.match(line)
    if m:
        return {"k": "M", "b": _bytes(m.group(1))}
    m = _RE_T.match(line)
    if m:
        return {"k": "T", "b": _bytes(m.group(1))}
    m = _RE_A.match(line)
    if m:
        return {"k": "A", "a": _bytes(m.group(1)), "b": _bytes(m.group(2))}
    m = _RE_D.match(line)
    if m:
        ws = m.group(2)
        return {"k": "D", "a": _bytes(m.group(1)),
                "w": [[1 if ws[i] == "M" else 0] + _bytes(ws[i + 1:i + 5]) for i in range(0, len(ws), 5)],
                "c": _bytes(m.group(3))}
    m = _RE_DE.match(line)
    if m:
        return {"k": "DE", "a": _bytes(m.group(1)), "c": _bytes(m.group(2))}
    if line == ":":
        return {"k": "DT"}
    if line.startswith("K_DSKA_"):
        return {"k": "DH"}
    if _RE_X.match(line):
        return {"k": "X", "d": [int(ch, 16) for ch in line]}
    if line == "":
        return {"k": "X", "d": []}
    return {"k": "BAD"}


_RE_CDEF = re.compile(r"^#define (\w+?)(?:_(\d+))?_(start|len|end) 0x([0-9A-F]{8})(ul|u)$")
_RE_CENT = re.compile(r"^#define (\w+)_entry 0x([0-9A-F]{8})ul$")
_RE_CARR = re.compile(r"^static const unsigned char (\w+?)(?:_(\d+))?_data\[\] =$")
_RE_CITEM = re.compile(r"^0x([0-9a-fA-F]{2})$")


def tokenize_c(text, syntax_ok):
    """C array output: #define tokens, one token per array, the compiler's syntax verdict"""
    toks = []
    lines = text.split("\n")
    i = 0
    while i < len(lines):
        ln = lines[i]
        m = _RE_CDEF.match(ln)
        if m:
            toks.append({"k": "CD", "n": m.group(3), "blk": (int(m.group(2)) - 1) if m.group(2) else 0,
                         "v": _bytes(m.group(4)), "sfx": m.group(5)})
        m = _RE_CENT.match(ln)
        if m:
            toks.append({"k": "CD", "n": "entry", "blk": 0, "v": _bytes(m.group(2)), "sfx": "ul"})
        m = _RE_CARR.match(ln)
        if m:
            blk = (int(m.group(2)) - 1) if m.group(2) else 0
            vals = []
            bad = False
            i += 1
            if i < len(lines) and lines[i] == "{":
                i += 1
            while i < len(lines) and lines[i] != "};":
                for item in lines[i].strip().split(","):
                    if item == "":
                        continue
                    mm = _RE_CITEM.match(item)
                    if not mm:
                        bad = True
                        continue
                    vals.append(int(mm.group(1), 16))
                i += 1
            toks.append({"k": "BAD"} if bad else {"k": "CA", "blk": blk, "b": vals})
        i += 1
    toks.append({"k": "CSYN", "ok": bool(syntax_ok)})
    return toks


def c_syntax_ok(text, workdir):
    """independent oracle for 'syntactically valid C': the system C compiler's parser"""
    p = os.path.join(workdir, "o_syntax.c")
    with open(p, "w") as f:
        f.write(text)
        f.write("\nint main(void) { return 0; }\n")
    r = subprocess.run(["gcc", "-fsyntax-only", "-x", "c", p], stdout=subprocess.PIPE, stderr=subprocess.PIPE)
    return r.returncode == 0


def tokenize(text, workdir=None):
    if text.startswith("#ifndef"):
        return tokenize_c(text, c_syntax_ok(text, workdir or scratch()))
    lines = text.split("\n")
    if lines and lines[-1] == "":
        lines.pop()
    return [tokenize_line(ln.rstrip("\r")) for ln in lines]


def records_of(pbytes):
    """data records of a code file as the case's `recs` (file order) + entry"""
    pr = codefile.parse(pbytes)
    recs = [{"cpu": r.cpu, "seg": r.seg, "gran": r.gran, "start": r.start, "data": list(r.data)}
            for r in pr.data_records()]
    entries = [r.start for r in pr.records if r.kind == "entry"]
    return pr, recs, (entries[0] if entries else -1)


def run_p2hex(tool, env, pbytes, o, timeout=30):
    """run the real p2hex; returns dict(rc, text, out, err, cmd)"""
    d = tempfile.mkdtemp(prefix="h-", dir=scratch())
    try:
        with open(os.path.join(d, "x.p"), "wb") as f:
            f.write(pbytes)
        cmd = [tool] + argv(o)
        rc, out, err, to = run(cmd, cwd=d, env=env, timeout=timeout)
        text = None
        hp = os.path.join(d, "o.hex")
        if os.path.exists(hp):
            with open(hp, "rb") as f:
                text = f.read().decode("latin-1")
        toks = tokenize(text, d) if (text is not None and rc == 0) else []
        return {"rc": -999 if rc is None else rc, "text": text, "out": out, "err": err, "cmd": cmd[1:],
                "lines": toks, "timeout": to}
    finally:
        shutil.rmtree(d, ignore_errors=True)


def _job(args):
    tool, env, pbytes, o = args
    return run_p2hex(tool, env, pbytes, o)


def run_many(build, jobs, workers=None):
    """jobs: list of (pbytes, o).  Runs in worker processes; order preserved."""
    import concurrent.futures as cf
    from .common import NCPU
    if not jobs:
        return []
    scratch()
    tool, env = build.tool("p2hex"), build.env()
    args = [(tool, env, p, o) for (p, o) in jobs]
    w = workers or NCPU
    with cf.ProcessPoolExecutor(max_workers=w) as ex:
        return list(ex.map(_job, args, chunksize=max(1, min(32, len(args) // (w * 4) or 1))))
