"""Independent reader / writer for AS code files, written from doc/file-formats.md (shares no code with the
repository).  The reader only tokenises; it reports structural problems instead of guessing."""
import struct

MAGIC = b"\x89\x14"
SEG_NAMES = {0: "NONE", 1: "CODE", 2: "DATA", 3: "IDATA", 4: "XDATA", 5: "YDATA", 6: "BDATA", 7: "IO", 8: "REG",
             9: "ROMDATA"}


class Rec:
    __slots__ = ("kind", "hdr", "cpu", "seg", "gran", "start", "data", "off", "short")

    def __init__(self, kind, **kw):
        self.kind = kind  # "data" | "entry" | "creator" | "other"
        self.hdr = kw.get("hdr")
        self.cpu = kw.get("cpu")
        self.seg = kw.get("seg")
        self.gran = kw.get("gran")
        self.start = kw.get("start")
        self.data = kw.get("data", b"")
        self.off = kw.get("off")
        self.short = kw.get("short", False)

    def as_dict(self):
        return {"kind": self.kind, "cpu": self.cpu, "seg": self.seg, "gran": self.gran, "start": self.start,
                "len": len(self.data)}


class ParseResult:
    def __init__(self):
        self.records = []
        self.problems = []   # structural violations of the documented format
        self.creator = None
        self.entry = None

    @property
    def well_formed(self):
        return not self.problems

    def data_records(self):
        return [r for r in self.records if r.kind == "data"]

    def image(self):
        """dict (seg, byte-address) -> list of byte values laid down there (list to expose duplicates).
        Byte address = start*gran + i, so different granularities stay comparable per segment."""
        img = {}
        for r in self.data_records():
            base = r.start * max(r.gran, 1)
            for i, b in enumerate(r.data):
                img.setdefault((r.seg, base + i), []).append(b)
        return img


def default_gran(cpu):
    """Granularity implied by a short ($01..$7f) header: only needed for files written by pbind."""
    two = {0x09: 4, 0x70: 2, 0x71: 2, 0x72: 2, 0x74: 2, 0x75: 2, 0x76: 4, 0x77: 2, 0x7d: 4, 0x7e: 4, 0x7f: 4,
           0x3b: 2, 0x47: 4, 0x4b: 2, 0x0a: 2, 0x12: 2, 0x5a: 4, 0x1a: 2, 0x1b: 2, 0x1c: 2, 0x1d: 2, 0x5b: 4,
           0x6b: 4, 0x5c: 4, 0x25: 4, 0x6d: 2, 0x4f: 2, 0x4d: 2, 0x43: 2, 0x36: 2, 0x3a: 2}
    return two.get(cpu, 1)


def parse(buf):
    res = ParseResult()
    if len(buf) < 2 or buf[:2] != MAGIC:
        res.problems.append("bad magic")
        return res
    p = 2
    n = len(buf)
    seen_entry = 0
    while True:
        if p >= n:
            res.problems.append("no creator record (file ends at %d)" % p)
            break
        hdr = buf[p]
        off = p
        p += 1
        if hdr == 0x00:
            res.creator = buf[p:].decode("latin-1")
            res.records.append(Rec("creator", hdr=0, off=off, data=buf[p:]))
            break
        if hdr == 0x80:
            if p + 4 > n:
                res.problems.append("truncated entry record at %d" % off)
                break
            res.entry = struct.unpack_from("<I", buf, p)[0]
            seen_entry += 1
            res.records.append(Rec("entry", hdr=hdr, off=off, start=res.entry))
            p += 4
            continue
        if hdr in (0x81, 0x82, 0x83, 0x84):
            if p + 3 > n:
                res.problems.append("truncated record header at %d" % off)
                break
            cpu, seg, gran = buf[p], buf[p + 1], buf[p + 2]
            p += 3
            short = False
        elif hdr <= 0x7f:
            cpu, seg, gran, short = hdr, 1, default_gran(hdr), True
        elif hdr == 0x85:
            # relocation info: counts + tables (opaque here)
            if p + 12 > n:
                res.problems.append("truncated reloc info at %d" % off)
                break
            cnt, ecnt, slen = struct.unpack_from("<III", buf, p)
            p += 12
            size = cnt * 16 + ecnt * 16 + slen
            if p + size > n:
                res.problems.append("truncated reloc tables at %d" % off)
                break
            res.records.append(Rec("other", hdr=hdr, off=off, data=buf[p:p + size]))
            p += size
            continue
        else:
            res.problems.append("unknown header $%02x at %d" % (hdr, off))
            break
        if p + 6 > n:
            res.problems.append("truncated address/length at %d" % off)
            break
        start, ln = struct.unpack_from("<IH", buf, p)
        p += 6
        if p + ln > n:
            res.problems.append("record at %d claims %d bytes, only %d present" % (off, ln, n - p))
            break
        data = buf[p:p + ln]
        p += ln
        if gran not in (1, 2, 4, 8):
            res.problems.append("record at %d: granularity %d" % (off, gran))
        elif ln % gran:
            res.problems.append("record at %d: length %d not a multiple of granularity %d" % (off, ln, gran))
        if seg > 9:
            res.problems.append("record at %d: segment %d" % (off, seg))
        res.records.append(Rec("data", hdr=hdr, cpu=cpu, seg=seg, gran=gran, start=start, data=data, off=off,
                               short=short))
    if seen_entry > 1:
        res.problems.append("%d entry records" % seen_entry)
    return res


def parse_file(path):
    with open(path, "rb") as f:
        return parse(f.read())


def write(records, entry=None, creator="VERIF", short_ok=False):
    """records: iterable of dicts {cpu, seg, gran, start, data[, short]}.  Independent writer."""
    out = bytearray(MAGIC)
    for r in records:
        data = bytes(r["data"])
        assert len(data) <= 0xFFFF
        if r.get("short") and short_ok:
            out.append(r["cpu"])
        else:
            out += bytes([r.get("hdr", 0x81), r["cpu"], r["seg"], r["gran"]])
        out += struct.pack("<IH", r["start"] & 0xFFFFFFFF, len(data))
        out += data
    if entry is not None:
        out += b"\x80" + struct.pack("<I", entry & 0xFFFFFFFF)
    out += b"\x00" + creator.encode("latin-1")
    return bytes(out)
