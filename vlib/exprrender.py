"""Rendering of TLC-generated formula / data-definition cases into assembler source (C08, C09).

Nothing here computes an expected value: atoms are *spelled* from the description TLC exported (digit list, base;
sign/mantissa/exponent; character codes), token lists are concatenated, and the bytes TLC printed are compared
with the bytes found in the code file.
"""
import re

from . import codefile

ERR_RE = re.compile(r"^\s*(?:> > >\s*)?([^\s(]+)\((\d+)\)(?::\d+)?\s*:\s*(error|fatal)", re.I | re.M)
WARN_RE = re.compile(r"^\s*(?:> > >\s*)?([^\s(]+)\((\d+)\)(?::\d+)?\s*:\s*warning", re.I | re.M)

DIGITS = "0123456789ABCDEFGHIJKLMNOPQRSTUVWXYZ"


class Dialect:
    """How one target spells constants and data statements."""

    def __init__(self, name, cpu, hexfmt, big, stmt_int, stmt_flt, stmt_str, pre=()):
        self.name = name
        self.cpu = cpu
        self.hexfmt = hexfmt      # 'intel' | 'moto' | 'c'
        self.big = big            # big-endian data statements
        self.stmt_int = stmt_int
        self.stmt_flt = stmt_flt
        self.stmt_str = stmt_str
        self.pre = list(pre)

    def header(self):
        return ["\tcpu %s" % self.cpu] + ["\t" + p for p in self.pre]

    def spell_int(self, digits, base):
        s = "".join(DIGITS[d] for d in digits)
        if base == 10:
            return s
        if base == 16:
            if self.hexfmt == "intel":
                return ("0" if s[0] in "ABCDEF" else "") + s + "h"
            if self.hexfmt == "moto":
                return "$" + s
            return "0x" + s
        if base == 2:
            return {"intel": s + "b", "moto": "%" + s, "c": "0b" + s}[self.hexfmt]
        if base == 8:
            return {"intel": s + "o", "moto": "@" + s, "c": "0" + s}[self.hexfmt]
        raise ValueError(base)


Z80 = Dialect("z80", "z80", "intel", False, "dq", "dq", "db")
M68K = Dialect("68000", "68000", "moto", True, "dc.q", "dc.d", "dc.b", pre=["padding off"])
DIALECTS = {"z80": Z80, "68000": M68K}


def dyadic_decimal(s, m, e):
    """exact decimal expansion of (-1)^s * m * 2^e (always with a decimal point)"""
    if m == 0:
        txt = "0.0"
    elif e >= 0:
        txt = "%d.0" % (m << e)
    else:
        k = -e
        num = m * 5 ** k
        d = str(num).rjust(k + 1, "0")
        frac = d[-k:].rstrip("0") or "0"
        txt = d[:-k] + "." + frac
    return ("-" if s else "") + txt


def spell_string(codes, quote='"'):
    out = []
    for c in codes:
        ch = chr(c)
        if ch in ('"', "'", "\\") or c < 32 or c > 126:
            out.append("\\x%02x" % c)       # hexadecimal escape: at most two digits are read
        else:
            out.append(ch)
    return quote + "".join(out) + quote


def spell_atom(d, dialect, atoms=None, spell_tokens=None):
    ty = d["ty"]
    if ty == "int":
        return dialect.spell_int(d["digits"], d["base"])
    if ty == "flt":
        return dyadic_decimal(d["s"], d["m"], d["e"])
    if ty == "str":
        return spell_string(d["cs"])
    raise ValueError(ty)


FUNC_RE = re.compile(r"^[A-Z][A-Z0-9]+$")


def render_tokens(tokens, atoms, valsrc, dialect, r=None, symbols=None):
    """token list -> formula text.  atoms: token -> description; valsrc: token -> token list (string whose
    characters are that formula); symbols: dict token -> symbol name for atoms hoisted into EQU symbols."""
    out = []
    for t in tokens:
        if symbols and t in symbols:
            out.append(symbols[t])
        elif t in atoms:
            out.append(spell_atom(atoms[t], dialect))
        elif t in valsrc:
            out.append('"' + render_tokens(valsrc[t], atoms, valsrc, dialect) + '"')
        elif FUNC_RE.match(t) and r is not None:
            out.append(r.choice([t, t.lower(), t.capitalize()]))
        else:
            out.append(t)
    return "".join(out)


def error_lines(res, fname="a.asm"):
    """set of source line numbers of fname for which an error was reported"""
    txt = (res.out or "") + "\n" + (res.err or "")
    return {int(m.group(2)) for m in ERR_RE.finditer(txt) if m.group(1).endswith(fname)}


def crashed(res):
    """did not end in one of the documented ways: 0, 2 (errors), 3 (fatal error, with a message)"""
    if res.rc == 3 and ERR_RE.search((res.out or "") + "\n" + (res.err or "")):
        return False
    return res.timeout or res.sig is not None or res.rc not in (0, 2)


def records_by_address(res):
    """code file -> {start address: bytes} (granularity-1 targets), None if there is no readable code file"""
    if res.p is None:
        return None
    pr = codefile.parse(res.p)
    out = {}
    for rec in pr.data_records():
        out[rec.start] = bytes(rec.data)
    return out
