#!/bin/sh
# Offline setup: check the tools the checks need, parse every TLA+ module once, warm the build cache.
set -e
cd "$(dirname "$0")"
command -v java >/dev/null && command -v cmake >/dev/null && command -v ninja >/dev/null && command -v python3 >/dev/null
test -f /opt/veriftools/tla/tla2tools.jar
fail=0
for f in spec/*.tla; do
  case "$f" in *_TTrace_*) continue;; esac
  if ! (cd spec && java -cp /opt/veriftools/tla/tla2tools.jar:/opt/veriftools/tla/CommunityModules-deps.jar tla2sany.SANY "$(basename "$f")" >/tmp/sany.$$ 2>&1); then
    echo "SANY failed on $f"; tail -5 /tmp/sany.$$; fail=1
  fi
done
rm -f /tmp/sany.$$
python3 -c "
import sys; sys.path.insert(0,'.')
from vlib import build
b=build.get('hook'); print('hook build:', b.dir, 'hooks' if b.hooks else 'NO HOOKS')
"
[ $fail = 0 ] || echo "WARNING: some modules do not parse (their checks will report CHECK-ERROR)"
exit 0
